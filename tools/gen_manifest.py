#!/usr/bin/python3
"""Regenerates /verif/MANIFEST.json from the table below (kept next to the checks so it stays in sync)."""
import json, subprocess, os
ROOT = os.path.dirname(os.path.dirname(os.path.abspath(__file__)))
ids = [json.loads(l)['id'] for l in open(os.path.join(ROOT, 'properties.jsonl'))]

CHECKS = {}
def check(pid, category, text, note, technique, engine, design_ref):
    CHECKS[pid] = dict(category=category, text=text, note=note, technique=technique, engine=engine, design_ref=design_ref)

exec(open(os.path.join(ROOT, 'tools', 'checks_table.py')).read())

NOT_APPLICABLE = {}
na_path = os.path.join(ROOT, 'tools', 'not_applicable.json')
if os.path.exists(na_path):
    NOT_APPLICABLE = json.load(open(na_path))

hook_commits = subprocess.run(['git', '-C', '/repo', 'log', '--format=%H %s'], capture_output=True, text=True).stdout.splitlines()
hook_commits = [l.split(' ')[0] for l in hook_commits if l.split(' ', 1)[1].startswith('verif hooks')]

m = {
 "version": 1,
 "setup_cmd": "./check --setup",
 "hooks": {
  "guard": "verif",
  "enable": "cargo feature `verif` of package nun-db; the harness crate /verif/harness depends on /repo by path with features=[\"verif\"], so every ./check rebuilds nun-db from /repo's working tree with the hooks on",
  "baseline_off_cmd": "cd /repo && cargo test --workspace --no-fail-fast --offline",
  "source_commits": list(reversed(hook_commits)),
  "add_only": True
 },
 "engines": [
  {"name": "nunverif", "path": "harness", "serves_properties": sorted(CHECKS.keys()),
   "kind_free_text": "Rust harness linking the real nun-db library (feature verif): reference-model monitors at the process_request boundary, controlled/free-running schedulers over hook points, simulated cluster over in-memory links, strace-driven kill-point enumeration, S3 stub differential runs, real transports on loopback"}
 ],
 "checks": [],
 "notes": "Runtime monitoring only: every check runs the real nun-db code under generated workloads and decides with an oracle over observed executions. Exit 0 held / 1 VIOLATION / 2 inconclusive. Known findings: /verif/known_findings.json.",
 "not_applicable": []
}
for pid in ids:
    if pid in CHECKS:
        c = CHECKS[pid]
        m["checks"].append({
            "property_id": pid,
            "quick_cmd": "./check %s quick" % pid,
            "thorough_cmd": "./check %s thorough" % pid,
            "evidence_file": "/verif/evidence/%s.json" % pid,
            "engine": c["engine"],
            "level_claimed": {"category": c["category"], "text": c["text"], "design_ref": c["design_ref"]},
            "level_note": c["note"],
            "technique": c["technique"],
        })
    else:
        m["not_applicable"].append({"property_id": pid, "reason": NOT_APPLICABLE.get(pid, "check under construction in this round; not yet claimed")})
json.dump(m, open(os.path.join(ROOT, 'MANIFEST.json'), 'w'), indent=1)
print("checks:", len(m["checks"]), "not_applicable:", len(m["not_applicable"]))
