#!/bin/bash
# usage: tools/all_quick.sh <seed> [tier]   — runs every check once, prints one line per check
cd /verif
S=${1:-1}; T=${2:-quick}
for i in $(seq -w 1 20); do
  s=$(date +%s)
  VERIF_SEED=$S ./check C$i $T > out/all-$T-C$i-s$S.log 2>&1
  rc=$?
  echo "C$i seed=$S $T exit=$rc $(( $(date +%s) - s ))s viol=$(grep -a -c '^VIOLATION' out/all-$T-C$i-s$S.log) known=$(grep -a -c '^KNOWN' out/all-$T-C$i-s$S.log) $(grep -a '^INCONCLUSIVE' out/all-$T-C$i-s$S.log | head -1 | cut -c1-120)"
done
