#!/bin/bash
# usage: tools/lane_seed.sh <lane dir, e.g. /tmp/r10/p1> <seed dir> <check id> [more ids...]
# triage of a seeded change WITHOUT touching /repo: the lane holds a scratch worktree of /repo (<lane>/repo) and a copy of
# /verif (<lane>/verif) whose harness depends on that worktree; the committed harness sources are synchronised first.
# (The final confirmation of a seed is still tools/try_seed.sh against /repo itself.)
set -u
L="$1"; D="$(cd "$2" && pwd)"; shift; shift
NAME="$(basename "$(dirname "$D")")-$(basename "$D")"
# the lane runs /verif as COMMITTED (so that half-finished edits in the working tree never reach a lane)
git -C /verif archive HEAD harness check known_findings.json tools | tar -x -C "$L/verif"
sed -i "s#\"/repo#\"$L/repo#g" "$L/verif/harness/Cargo.toml"
cd "$L/repo" || exit 2
git checkout -q -- . ; git clean -fdq src
PATCH="$D/patch.diff"; [ -f "$D/patch.rebased.diff" ] && PATCH="$D/patch.rebased.diff"
if ! git apply --check "$PATCH"; then echo "$NAME: patch does not apply"; exit 2; fi
git apply "$PATCH"
cd "$L/verif"
for id in "$@"; do
  LOG="/verif/out/seed-$NAME-$id.log"
  VERIF_SEED="${VERIF_SEED:-1}" ./check "$id" quick > "$LOG" 2>&1
  echo "$NAME $id exit=$? violations=$(grep -a -c '^VIOLATION' "$LOG") known=$(grep -a -c '^KNOWN' "$LOG") $(grep -a -v '^KNOWN\|^VIOLATION\|signature' "$LOG" | tail -1 | cut -c1-160)"
  grep -a "signature" "$LOG" | sort | uniq -c | sort -rn | head -5 | cut -c1-400
done
cd "$L/repo" && git checkout -q -- . && git clean -fdq src
