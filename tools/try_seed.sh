#!/bin/bash
# usage: tools/try_seed.sh <dir containing patch.diff> <check id> [more ids...]
# applies the seeded change to /repo, runs the quick checks, undoes it. Output: out/seed-<name>-<id>.log
set -u
D="$(cd "$1" && pwd)"; shift
NAME=$(basename "$D")
cd /repo || exit 2
if ! git diff --quiet; then echo "/repo has uncommitted changes"; exit 2; fi
if ! git apply --check "$D/patch.diff"; then echo "patch does not apply"; exit 2; fi
git apply "$D/patch.diff"
cd /verif
for id in "$@"; do
  ./check "$id" quick > "out/seed-$NAME-$id.log" 2>&1
  echo "$NAME $id exit=$? violations=$(grep -c '^VIOLATION' out/seed-$NAME-$id.log) $(grep -v '^KNOWN\|^VIOLATION\|signature' out/seed-$NAME-$id.log | tail -1 | cut -c1-160)"
  grep "signature" "out/seed-$NAME-$id.log" | sort | uniq -c | head -6
done
git -C /repo checkout -- .
git -C /repo status --short | head -3
