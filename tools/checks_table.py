check("C01", "exploration",
      "Reference-model monitor: every reply (Response + lines pushed to the client) of ~30k generated command histories (all sequences up to length 4/5 over a 12-step alphabet incl. snapshot/declutter, plus seeded random histories of length 4-30) is compared step by step with a plain map; after every refused command the full node state dump must be unchanged. Held = no mismatch on the executions produced; coverage counted as (command, internal key status before, reply class) triples.",
      "Trusts: the 60-line plain-map model (pattern rule, $$ filtering, i32 increment), the harness' in-process Session (process_request boundary = what all transports call). Versions only enter through set-safe acceptance relative to the version get-safe just reported. Built with overflow checks on.",
      "runtime reference-model monitor over generated histories (client boundary), state-dump invariant on refusals",
      "nunverif", "DESIGN.md section 3 C01")
