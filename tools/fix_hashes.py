#!/usr/bin/python3
"""Re-resolves the commit hashes of fixed entries in known_findings.json by commit subject (after a history rewrite in /repo)."""
import json, subprocess, re
p='/verif/known_findings.json'; d=json.load(open(p))
log=subprocess.run(['git','-C','/repo','log','--format=%h %s'],capture_output=True,text=True).stdout.splitlines()
full=subprocess.run(['git','-C','/repo','log','--format=%H %s'],capture_output=True,text=True).stdout.splitlines()
subjects={}
for f in d['findings']:
    if f['status']!='fixed': continue
    subj=f.get('subject')
    if not subj:
        # find by old hash in an archived map, else leave
        continue
for f in d['findings']:
    if f['status']!='fixed': continue
    subj=f.get('subject')
    if subj:
        m=[l.split()[0] for l in log if l.split(' ',1)[1]==subj]
        if m:
            old=f['commit']; f['commit']=m[0]; f['record']=f['record'].replace(old,m[0])
json.dump(d,open(p,'w'),indent=1)
